/-
  `internal/rlist`: statements of tx.go, the two triggers on `rlist`, and the Tx methods.
-/
import RedkaModel.Model.Key

namespace Redka.Model

open Redka

/-- rows of one list ordered by `pos` -/
def listRows (db : DB) (kid : Int) : List ListRow :=
  sortBy (fun a b => decide (a.pos < b.pos)) (db.lists.filter (fun r => r.kid == kid))

def dyMax : List Dyadic → Option Dyadic
  | [] => none
  | x :: xs => match dyMax xs with
    | none => some x
    | some m => some (if m < x then x else m)

def dyMin : List Dyadic → Option Dyadic
  | [] => none
  | x :: xs => match dyMin xs with
    | none => some x
    | some m => some (if x < m then x else m)

/-- trigger `rlist_on_delete`, fired once per deleted row -/
def listOnDelete (db : DB) (kid : Int) (now : Int) : DB :=
  db.updKey kid (fun o => { o with version := o.version + 1, mtime := now, len := o.len.map (· - 1) })

/-- trigger `rlist_on_update`, fired once per updated row -/
def listOnUpdate (db : DB) (kid : Int) (now : Int) : DB :=
  db.updKey kid (fun o => { o with version := o.version + 1, mtime := now })

/-- delete the given rows of list `kid` (identified by position), firing the trigger for each -/
def listDeleteRows (db : DB) (kid : Int) (victims : List Dyadic) (now : Int) : DB :=
  let db1 := { db with lists := db.lists.filter (fun r => !(r.kid == kid && victims.contains r.pos)) }
  victims.foldl (fun d _ => listOnDelete d kid now) db1

/-- `sqlPush` -/
def listPushKey (db : DB) (k : Bytes) (now : Int) : Except Err (DB × KeyRow) :=
  keyUpsert db k TList
    (fun id => { id := id, key := k, ty := TList, version := 1, etime := none, mtime := now, len := some 1 })
    (fun o => { o with version := o.version + 1, mtime := now, len := o.len.map (· + 1) })

/-- `push`: `sqlPush` then `sqlPushBack` / `sqlPushFront` -/
def listPush (db : DB) (k e : Bytes) (front : Bool) (now : Int) : Res :=
  match listPushKey db k now with
  | .error er => .err er db
  | .ok (db1, r) =>
    let ps := (db1.lists.filter (fun x => x.kid == r.id)).map (·.pos)
    let pos : Dyadic :=
      if front then (match dyMin ps with | none => 0 | some m => round53 (m - 1))
      else (match dyMax ps with | none => 0 | some m => round53 (m + 1))
    if ps.contains pos then .err .sqlUnique db1
    else
      let db2 := { db1 with lists := db1.lists ++ [{ kid := r.id, pos := pos, elem := e }] }
      .ok (match r.len with | some n => .int n | none => .nil) db2

/-- `pop`: `sqlPopBack` / `sqlPopFront` -/
def listPop (db : DB) (k : Bytes) (front : Bool) (now : Int) : Res :=
  match db.liveKeyT k TList now with
  | none => .err .notFound db
  | some r =>
    let rows := listRows db r.id
    match (if front then rows.head? else rows.getLast?) with
    | none => .err .notFound db
    | some row => .ok (.bytes row.elem) (listDeleteRows db r.id [row.pos] now)

def listPopBackPushFront (db : DB) (s d : Bytes) (now : Int) : Res :=
  let r := listPop db s false now
  match r.out with
  | .error e => .err e r.db
  | .ok (.bytes el) =>
    let p := listPush r.db d el true now
    (match p.out with
     | .error e => .err e p.db
     | .ok _ => .ok (.bytes el) p.db)
  | .ok _ => .err .sqlOther r.db

/-- `sqlDelete` -/
def listDelete (db : DB) (k e : Bytes) (now : Int) : Res :=
  match db.liveKeyT k TList now with
  | none => .ok (.int 0) db
  | some r =>
    let victims := ((listRows db r.id).filter (fun x => x.elem == e)).map (·.pos)
    .ok (.int victims.length) (listDeleteRows db r.id victims now)

/-- `delete`: `sqlDeleteBack` / `sqlDeleteFront` -/
def listDeleteN (db : DB) (k e : Bytes) (n : Int) (back : Bool) (now : Int) : Res :=
  if n ≤ 0 then .ok (.int 0) db
  else
    match db.liveKeyT k TList now with
    | none => .ok (.int 0) db
    | some r =>
      let rows := (listRows db r.id).filter (fun x => x.elem == e)
      let rows := if back then rows.reverse else rows
      let victims := (sqlLimit 0 n rows).map (·.pos)
      .ok (.int victims.length) (listDeleteRows db r.id victims now)

/-- the row `rownum = ? + 1` of `sqlGet` / `sqlSet`, after the Go-side reversal for negative
indexes -/
def listRowAt (db : DB) (kid : Int) (i : Int) : Option ListRow :=
  let rows := listRows db kid
  let (rows, i) := if i < 0 then (rows.reverse, -i - 1) else (rows, i)
  if i < 0 then none else rows[i.toNat]?

def listGet (db : DB) (k : Bytes) (i : Int) (now : Int) : Res :=
  match db.liveKeyT k TList now with
  | none => .err .notFound db
  | some r =>
    match listRowAt db r.id i with
    | none => .err .notFound db
    | some row => .ok (.bytes row.elem) db

def listSet (db : DB) (k : Bytes) (i : Int) (e : Bytes) (now : Int) : Res :=
  match db.liveKeyT k TList now with
  | none => .err .notFound db
  | some r =>
    match listRowAt db r.id i with
    | none => .err .notFound db
    | some row =>
      let db1 := listOnUpdate db r.id now
      .ok .nil { db1 with lists := db1.lists.map (fun x =>
        if x.kid == r.id && x.pos == row.pos then { x with elem := e } else x) }

def listLen (db : DB) (k : Bytes) (now : Int) : Res :=
  match db.liveKeyT k TList now with
  | none => .ok (.int 0) db
  | some r => match r.len with
    | some n => .ok (.int n) db
    | none => .err .sqlOther db

/-- the Go-side shortcut at the top of `Range` -/
def rangePrecheck (a b : Int) : Bool :=
  decide (a > b) && ((decide (a > 0) && decide (b > 0)) || (decide (a < 0) && decide (b < 0)))

/-- the `bounds` CTE: a negative bound is `coalesce(len, 0) + bound` (`len` is NULL when the key is missing) -/
def bound (len : Option Int) (x : Int) : Option Int :=
  if x < 0 then some (len.getD 0 + x) else some x

/-- rows kept by `limit max(0, start), max(0, stop - max(0, start) + 1)`: the start is clamped to the head
of the list, an empty or inverted window selects nothing, a stop beyond the tail is harmless. (`none` —
a NULL in `LIMIT` — can no longer arise; the branch stays for the shape of the callers.) -/
def rangeWindow {α} (len : Option Int) (a b : Int) (rows : List α) : Option (List α) :=
  match bound len a, bound len b with
  | some s0, some e =>
    let s := max 0 s0
    some (sqlLimit s (max 0 (e - s + 1)) rows)
  | _, _ => none

def listRange (db : DB) (k : Bytes) (a b : Int) (now : Int) : Res :=
  if rangePrecheck a b then .ok (.list []) db
  else
    let key := db.liveKeyT k TList now
    let len : Option Int := key.bind (·.len)
    let rows : List ListRow := match key with | none => [] | some r => listRows db r.id
    match rangeWindow len a b rows with
    | none => .err .sqlMismatch db
    | some w => .ok (.list (w.map (fun r => .bytes r.elem))) db

def listTrim (db : DB) (k : Bytes) (a b : Int) (now : Int) : Res :=
  match db.liveKeyT k TList now with
  | none => .ok (.int 0) db
  | some r =>
    let rows := listRows db r.id
    if rows.isEmpty then .ok (.int 0) db
    else
      match rangeWindow r.len a b rows with
      | none => .err .sqlMismatch db
      | some keep =>
        let keepPos := keep.map (·.pos)
        let victims := (rows.filter (fun x => !keepPos.contains x.pos)).map (·.pos)
        .ok (.int victims.length) (listDeleteRows db r.id victims now)

/-- `insert`: `sqlInsertKey` (find the key), `sqlInsertAfter` / `sqlInsertBefore` (insert next to
the pivot), then `sqlInsert` (bump the key row). A missing pivot — including the empty list, from
which `insert … select … from rlist where kid = ? limit 1` selects no row — is reported before
anything has been changed. -/
def listInsert (db : DB) (k p e : Bytes) (after : Bool) (now : Int) : Res :=
  match db.liveKeyT k TList now with
  | none => .err .notFound db
  | some r0 =>
    let rows := listRows db r0.id
    let pivots := (rows.filter (fun x => x.elem == p)).map (·.pos)
    match dyMin pivots with
    | none => .err .pivotNotFound db           -- NOT NULL constraint failed: rlist.pos / no row inserted
    | some pv =>
      let newpos : Dyadic :=
        if after then
          (match dyMin ((rows.filter (fun x => decide (pv < x.pos))).map (·.pos)) with
           | none => round53 (pv + 1)
           | some nx => mid53 pv nx)
        else
          (match dyMax ((rows.filter (fun x => decide (x.pos < pv))).map (·.pos)) with
           | none => round53 (pv - 1)
           | some pr => mid53 pr pv)
      if (rows.map (·.pos)).contains newpos then .err .sqlUnique db
      else
        let db1 : DB := { db with lists := db.lists ++ [{ kid := r0.id, pos := newpos, elem := e }] }
        let db2 := db1.updKey r0.id (fun o =>
          { o with version := o.version + 1, mtime := now, len := o.len.map (· + 1) })
        .ok (match r0.len with | some n => .int (n + 1) | none => .nil) db2

end Redka.Model
