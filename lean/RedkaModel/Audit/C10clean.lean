import RedkaModel.Props.C10clean

#print axioms Redka.Props.C10.live_iff_not_expired
#print axioms Redka.Props.C10.unique_ids_of_inv
#print axioms Redka.Props.C10.unique_ids_iff
#print axioms Redka.Props.C10.cleaner_removes_exactly_expired
#print axioms Redka.Props.C10.cleaner_removes_exactly_expired_nonpos
#print axioms Redka.Props.C10.exactly_expired_needs_unique_ids
#print axioms Redka.Props.C10.cleaner_leaves_no_expired
#print axioms Redka.Props.C10.cleaner_leaves_no_expired_nonpos
#print axioms Redka.Props.C10.cleaner_touches_only_expired
#print axioms Redka.Props.C10.cleaner_keys_sublist
#print axioms Redka.Props.C10.touches_only_expired_needs_unique_ids
#print axioms Redka.Props.C10.cleaner_limited
#print axioms Redka.Props.C10.cleaner_removes_children
#print axioms Redka.Props.C10.cleaner_children_exact
#print axioms Redka.Props.C10.cleaner_keeps_live_children
#print axioms Redka.Props.C10.cleaner_keeps_children_of_live
#print axioms Redka.Props.C10.cleaner_fk_off_keeps_all_children
#print axioms Redka.Props.C10.cleaner_abs_unchanged_from
#print axioms Redka.Props.C10.cleaner_abs_unchanged
#print axioms Redka.Props.C10.abs_unchanged_needs_unique_ids
#print axioms Redka.Props.C10.cleaner_preserves_inv
#print axioms Redka.Props.C10.cleaner_preserves_unique_ids
#print axioms Redka.Props.C10.cleaner_fk_off_leaves_orphans
#print axioms Redka.Props.C10.fk_off_orphans_are_inherited
#print axioms Redka.Props.C10.preserves_inv_needs_fk
