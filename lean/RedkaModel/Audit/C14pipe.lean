import RedkaModel.Props.C14pipe

#print axioms Redka.Props.C14.pipeline_one_reply_each
#print axioms Redka.Props.C14.pipeline_in_step
