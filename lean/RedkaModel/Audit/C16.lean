import RedkaModel.Props.C16

#print axioms Redka.Props.C16.scan_complete_sorted
#print axioms Redka.Props.C16.scan_complete_sorted_val
#print axioms Redka.Props.C16.scan_complete_sorted_rows
#print axioms Redka.Props.C16.scan_complete_sorted_is_complete
#print axioms Redka.Props.C16.scan_terminates_signal
#print axioms Redka.Props.C16.scan_terminates_signal_unlimited
#print axioms Redka.Props.C16.scan_always_finishes
#print axioms Redka.Props.C16.scan_fuel_irrelevant
#print axioms Redka.Props.C16.scan_cursor_zero_iff_empty
#print axioms Redka.Props.C16.scan_sound
#print axioms Redka.Props.C16.scan_max_at_most_once
#print axioms Redka.Props.C16.keyscan_is_sorted_instance
#print axioms Redka.Props.C16.keyrows_sorted
#print axioms Redka.Props.C16.setscan_is_elem_ordered_instance
#print axioms Redka.Props.C16.hashscan_is_field_ordered_instance
#print axioms Redka.Props.C16.zscan_is_pattern_ordered_instance
#print axioms Redka.Props.C16.scanners_are_instances
#print axioms Redka.Props.C16.keyscanner_complete
#print axioms Redka.Props.C16.keyscanner_complete_mem
#print axioms Redka.Props.C16.scan_monotone_complete
#print axioms Redka.Props.C16.setscanner_monotone_complete
#print axioms Redka.Props.C16.scan_skips_deviates
#print axioms Redka.Props.C16.setscanner_skips_deviates
#print axioms Redka.Props.C16.zscanner_skips_deviates
#print axioms Redka.Props.C16.zscanner_prefix_skips_deviates
#print axioms Redka.Props.C16.scan_complete_iff_no_inversion
