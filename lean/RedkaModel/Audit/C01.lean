import RedkaModel.Props.C01

#print axioms Redka.Props.C01.classifiers_are_the_catalogue
#print axioms Redka.Props.C01.str_refines_wf
#print axioms Redka.Props.C01.str_refines_partial
#print axioms Redka.Props.C01.str_preserves_wf
#print axioms Redka.Props.C01.str_seq_refines
#print axioms Redka.Props.C01.str_seq_refines_inv
#print axioms Redka.Props.C01.get_after_set
#print axioms Redka.Props.C01.plain_set_clears_ttl
#print axioms Redka.Props.C01.keepttl_preserves
#print axioms Redka.Props.C01.incr_preserves_ttl
#print axioms Redka.Props.C01.incr_roundtrip
#print axioms Redka.Props.C01.incr_nonnumeric_fails
#print axioms Redka.Props.C01.incr_nonnumeric_notrace
#print axioms Redka.Props.C01.setcmd_matrix
#print axioms Redka.Props.C01.stale_incr_deviates
#print axioms Redka.Props.C01.stale_othertype_deviates
#print axioms Redka.Props.C01.overflow_deviates
#print axioms Redka.Props.C01.full_strength_is_false
#print axioms Redka.Props.C01.incr_arg_out_of_range
#print axioms Redka.Props.C01.valueFloat_format
#print axioms Redka.Props.C01.incrfloat_roundtrip
#print axioms Redka.Props.C01.incrfloat_nonnumeric_notrace
#print axioms Redka.Float.parse_format
#print axioms Redka.Props.C01.float_parse_correctly_rounded
#print axioms Redka.Props.C01.float_sum_correctly_rounded
