import RedkaModel.Props.C17

#print axioms Redka.Props.C17.atoi_itoa
#print axioms Redka.Props.C17.itoa_injective
#print axioms Redka.Props.C17.valueInt_itoa
#print axioms Redka.Props.C17.resp_roundtrip_append
#print axioms Redka.Props.C17.resp_roundtrip
#print axioms Redka.Props.C17.resp_stream
#print axioms Redka.Props.C17.resp_injective
#print axioms Redka.Props.C17.bulk_length_exact
#print axioms Redka.Props.C17.bulk_roundtrip_append
#print axioms Redka.Props.C17.bulk_injective
#print axioms Redka.Props.C17.bulk_array_roundtrip
#print axioms Redka.Props.C17.bulk_ne_null
#print axioms Redka.Props.C17.int_roundtrip
#print axioms Redka.Props.C17.tobytes_canonical_int
#print axioms Redka.Props.C17.tobytes_canonical_int_bytes
#print axioms Redka.Props.C17.tobytes_bool
#print axioms Redka.Props.C17.tobytes_str_bytes_same
#print axioms Redka.Props.C17.tobytes_bytes_injective
#print axioms Redka.Props.C17.tobytes_int_distinct
#print axioms Redka.Props.C17.tobytes_int_reads_back
#print axioms Redka.Props.C17.tobytes_float_canonical
#print axioms Redka.Props.C17.tobytes_float_distinct
#print axioms Redka.Props.C17.tobytes_total
