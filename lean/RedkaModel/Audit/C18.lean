import RedkaModel.Props.C18

#print axioms Redka.Props.C18.glob_agree_partial
#print axioms Redka.Props.C18.bang_negation_deviates
#print axioms Redka.Props.C18.documented_bang_example_fails
#print axioms Redka.Props.C18.literal_selects_itself
#print axioms Redka.Props.C18.star_selects_all
