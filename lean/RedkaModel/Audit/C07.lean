import RedkaModel.Props.C07

#print axioms Redka.Props.C07.usertx_atomic
#print axioms Redka.Props.C07.tables_eq_iff
#print axioms Redka.Props.C07.usertx_atomic_db
#print axioms Redka.Props.C07.usertx_fault_reports_error
#print axioms Redka.Props.C07.usertx_error_rolls_back
#print axioms Redka.Props.C07.d14_connection_replaced_deviates
#print axioms Redka.Props.C07.dbRun_atomic
#print axioms Redka.Props.C07.tx_alone_is_not_atomic
#print axioms Redka.Props.C07.update_wrapped_is_execTx
#print axioms Redka.Props.C07.single_op_atomic_under_faults
#print axioms Redka.Props.C07.all_wrappers_safe
#print axioms Redka.Props.C07.multi_statement_writers_are_wrapped
#print axioms Redka.Props.C07.non_update_wrappers_write_at_most_once
#print axioms Redka.Props.C07.rw_wrappers
#print axioms Redka.Props.C07.other_wrappers
#print axioms Redka.Props.C07.deleteAll_is_a_script
#print axioms Redka.Props.C07.deleteAll_script_not_atomic
#print axioms Redka.Props.C07.model_wrap_matches_source
#print axioms Redka.Props.C07.opMethod_exported
#print axioms Redka.Props.C07.readonly_never_writes
#print axioms Redka.Props.C07.ro_wrappers_only_select
