import RedkaModel.Props.C02rules

#print axioms Redka.Props.C02.lrange_take_drop
#print axioms Redka.Props.C02.range_negative_start
#print axioms Redka.Props.C02.range_negative_stop
#print axioms Redka.Props.C02.range_clamps_start
#print axioms Redka.Props.C02.range_clamps_stop
#print axioms Redka.Props.C02.range_inverted_empty
#print axioms Redka.Props.C02.range_past_end_empty
#print axioms Redka.Props.C02.range_in_range
#print axioms Redka.Props.C02.range_infix
#print axioms Redka.Props.C02.trim_keeps_range
#print axioms Redka.Props.C02.rank_negative_empty
#print axioms Redka.Props.C02.rank_inverted_empty
#print axioms Redka.Props.C02.rank_in_range
#print axioms Redka.Props.C02.rank_stop_clamped
