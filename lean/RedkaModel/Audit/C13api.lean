import RedkaModel.Props.C13api

#print axioms Redka.Props.C13api.wire_model_consults_only_the_source_calls
#print axioms Redka.Props.C13api.no_calls_no_dependency
#print axioms Redka.Props.C13api.documented_api_is_called_partial
#print axioms Redka.Props.C13api.doc_errata_deviate
#print axioms Redka.Props.C13api.txn_names_not_dispatched
#print axioms Redka.Props.C13api.every_dispatched_name_is_documented_partial
#print axioms Redka.Props.C13api.every_dispatch_row_has_source
#print axioms Redka.Props.C13api.every_command_type_has_a_run
#print axioms Redka.Props.C13api.wire_command_is_its_api_call
#print axioms Redka.Props.C13api.api_call_is_a_source_call
