import RedkaModel.Props.C14

#print axioms Redka.Props.C14.every_command_writes_one_value
#print axioms Redka.Props.C14.one_reply_partial
#print axioms Redka.Props.C14.crash_only_in_parser
#print axioms Redka.Props.C14.no_request_crashes
#print axioms Redka.Props.C14.parse_error_one_reply
#print axioms Redka.Props.C14.in_multi_one_reply
#print axioms Redka.Props.C14.in_multi_well_formed
#print axioms Redka.Props.C14.exec_one_reply
#print axioms Redka.Props.C14.one_reply
#print axioms Redka.Props.C14.exec_queue_values
#print axioms Redka.Props.C14.wellFormedOne_on_the_wire
#print axioms Redka.Props.C14.pipelined_replies_on_the_wire
#print axioms Redka.Props.C14.pipeline_replies
#print axioms Redka.Props.C14.one_reply_bytes
#print axioms Redka.Props.C14.negative_numkeys_is_refused
#print axioms Redka.Props.C14.exec_reply_complete
