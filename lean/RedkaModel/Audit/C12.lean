import RedkaModel.Props.C12

#print axioms Redka.Props.C12.read_notrace
#print axioms Redka.Props.C12.read_notrace_db
#print axioms Redka.Props.C12.refusal_notrace_db
#print axioms Redka.Props.C12.nothing_to_do_notrace_tx
#print axioms Redka.Props.C12.nothing_to_do_notrace_tx_partial
#print axioms Redka.Props.C12.K_is_empty
#print axioms Redka.Props.C12.nothing_to_do_notrace_db
#print axioms Redka.Props.C12.d04_repaired
#print axioms Redka.Props.C12.noTrace_db
#print axioms Redka.Props.C12.noTrace_tx
