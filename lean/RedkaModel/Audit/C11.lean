import RedkaModel.Props.C11

#print axioms Redka.Props.C11.inv_characterisation
#print axioms Redka.Props.C11.covered_all
#print axioms Redka.Props.C11.known_db_empty
#print axioms Redka.Props.C11.inv_step_tx_partial
#print axioms Redka.Props.C11.inv_step_db_partial
#print axioms Redka.Props.C11.inv_step_db
#print axioms Redka.Props.C11.inv_step_tx_exact
#print axioms Redka.Props.C11.inv_step_tx_any_fk
#print axioms Redka.Props.C11.fk_preserved
#print axioms Redka.Props.C11.fk_preserved_tx
#print axioms Redka.Props.C11.inv_init
#print axioms Redka.Props.C11.reachable_inv_partial
#print axioms Redka.Props.C11.reachable_inv
#print axioms Redka.Props.C11.run_inv
#print axioms Redka.Props.C11.orphans_need_fk_off
#print axioms Redka.Props.C11.sample_inv
#print axioms Redka.Props.C11.push_collision_breaks_inv
#print axioms Redka.Props.C11.orphan_witness
