import RedkaModel.Props.C11views

#print axioms Redka.Props.C11views.vkey_shows_exactly_the_live_keys
#print axioms Redka.Props.C11views.vstring_shows_exactly_the_live_strings
#print axioms Redka.Props.C11views.vlist_shows_exactly_the_live_lists
#print axioms Redka.Props.C11views.vset_shows_exactly_the_live_sets
#print axioms Redka.Props.C11views.vhash_shows_exactly_the_live_hashes
#print axioms Redka.Props.C11views.vzset_shows_exactly_the_live_zsets
#print axioms Redka.Props.C11views.expired_key_not_in_vkey
#print axioms Redka.Props.C11views.vkey_names_are_the_keyspace
#print axioms Redka.Props.C11views.vlist_idx_is_the_api_index
#print axioms Redka.Props.C11views.mem_numbered
#print axioms Redka.Props.C11views.datetime_landmarks
