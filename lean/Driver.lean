import RedkaModel.Proto
import RedkaModel.Model.Inv
import RedkaModel.Spec.Meta
import RedkaModel.ScanJudge
import RedkaModel.ConcJudge

open Redka Redka.Proto

def perms {α} : List α → List (List α)
  | [] => [[]]
  | x :: xs => (perms xs).flatMap (fun p =>
      (List.range (p.length + 1)).map (fun i => p.take i ++ [x] ++ p.drop i))

/-- all argument orders Go's map iteration may produce -/
def variants : Op → List Op
  | .strSetMany items => if items.length ≤ 5 then (perms items).map .strSetMany else [.strSetMany items]
  | .hashSetMany k items => if items.length ≤ 5 then (perms items).map (.hashSetMany k) else [.hashSetMany k items]
  | .zAddMany k items => if items.length ≤ 5 then (perms items).map (.zAddMany k) else [.zAddMany k items]
  | op => [op]

def outEq : Out → Out → Bool
  | .ok a, .ok b => a == b
  | .error a, .error b => a == b
  | _, _ => false

def runModel (mode : String) (op : Op) (now : Int) (pre : DB) : Res :=
  if mode == "tx" then Model.tx true op now pre else Model.dbRun op now pre

def isOutOfDomain : Out → Bool
  | .error .outOfDomain => true
  | _ => false

def judge5 (hdr preS opS resS postS : String) (viewS : Option String) : String :=
    match (hdr.splitOn " ").filter (· ≠ "") with
    | [seq, nowS, mode] =>
      match nowS.toInt?, runP pDump preS, runP pOp opS, runP pOut resS, runP pDump postS with
      | some now, .ok pre, .ok op, .ok res, .ok post =>
        let post := canon post
        let cands := (variants op).map (fun o => runModel mode o now pre)
        let inv := if post.invB then "1" else "0"
        let inTx := mode == "tx"
        let sv := match Spec.check inTx op now pre post res with
          | some true => "1" | some false => "0" | none => "-"
        -- D14 (connection replaced after a cancelled transaction: `foreign_keys` off) is a
        -- property of the connection, not of the operation; it is reported next to `Spec.known`
        let ks := String.intercalate "," ((if !pre.fk then ["D14"] else []) ++ Spec.known inTx op now pre)
        let invPre := if (canon pre).invB then "1" else "0"
        let nv := match Spec.noTrace inTx op (canon pre) post res with
          | some true => "1" | some false => "0" | none => "-"
        let vv := if Spec.traceless inTx op res then "-"
          else if Spec.metaOK op now (canon pre) post res then "1" else "0"
        let av := if cands.any (fun r => isOutOfDomain r.out) then "-"
          else if cands.any (fun r => outEq r.out res && decide (Spec.abs now r.db = Spec.abs now post)) then "1" else "0"
        let xv := if Spec.crossType op now pre then "1" else "0"
        let ev := if Spec.expiryInvolved op pre then "1" else "0"
        let tv := match Spec.typeEtimeTruthful inTx op now pre post res with
          | some true => "1" | some false => "0" | none => "-"
        -- C19: the destination of a successful store starts a new history (version 1, mtime = now)
        let hv := match Spec.storeHistory op now (canon pre) post res with
          | some true => "1" | some false => "0" | none => "-"
        -- C20: after the reclamation step with limit 0 (what the ticker calls) no stored row is expired
        let gv := match op with
          | .keyDeleteExpired n => if n ≤ 0 then (if post.keys.all (fun r => r.live now) then "1" else "0") else "-"
          | _ => "-"
        -- C11, views: what `select * from v…` returned vs the model of the views on the dumped tables
        let wv := match viewS with
          | none => "-"
          | some vs => match runP pViews vs with
            | .ok vd => if viewsAgree now post vd then "1" else "0"
            | .error _ => "E"
        let tail := s!"A={av} P={invPre} I={inv} S={sv} N={nv} V={vv} T={tv} H={hv} G={gv} W={wv} X={xv} E={ev} K={ks}"
        if cands.any (fun r => isOutOfDomain r.out) then s!"{seq} M=- {tail}"
        else
          match cands.find? (fun r => outEq r.out res && decide (canon r.db = post)) with
          | some _ => s!"{seq} M=1 {tail}"
          | none =>
            match cands.head? with
            | some r =>
              let parts := (if outEq r.out res then [] else ["out"]) ++ Spec.diffParts (canon r.db) post
              s!"{seq} M=0 {tail} D={String.intercalate "," parts} model= {showOut r.out} | {showDump (canon r.db)}"
            | none => s!"{seq} M=0 {tail}"
      | none, _, _, _, _ => s!"{seq} ERR bad now"
      | _, .error e, _, _, _ => s!"{seq} ERR pre: {e}"
      | _, _, .error e, _, _ => s!"{seq} ERR op: {e}"
      | _, _, _, .error e, _ => s!"{seq} ERR res: {e}"
      | _, _, _, _, .error e => s!"{seq} ERR post: {e}"
    | _ => "? ERR bad header"

def judge (line : String) : String :=
  match line.splitOn " | " with
  | [hdr, preS, opS, resS, postS] => judge5 hdr preS opS resS postS none
  | [hdr, preS, opS, resS, postS, viewS] => judge5 hdr preS opS resS postS (some viewS)
  | parts => s!"? ERR bad line ({parts.length} parts)"

/-- `FAULT seq now | pre | what | result | post`: an operation or user transaction that was made to
fail must report the failure and leave all six tables exactly as they were (C07). -/
def judgeFault (line : String) : String :=
  match line.splitOn " | " with
  | [hdr, preS, _what, resS, postS] =>
    match (hdr.splitOn " ").filter (· ≠ "") with
    | [_, seq, _] =>
      match runP pDump preS, runP pDump postS with
      | .ok pre, .ok post =>
        let same := decide ({ canon pre with fk := true } = { canon post with fk := true })
        let reported := resS.trimAscii.toString != "ok"
        -- D19: `DB.View` on the shared-cache ":memory:" path hands out a writable handle
        let isMem := (_what.splitOn " ").contains "cfg=memory"
        let k := String.intercalate "," ((if !post.fk then ["D14"] else []) ++ (if isMem then ["D19"] else []))
        s!"{seq} A={if same then 1 else 0} R={if reported then 1 else 0} F={if pre.fk == post.fk then 1 else 0} I={if (canon post).invB then 1 else 0} K={k}"
      | .error e, _ => s!"{seq} ERR pre: {e}"
      | _, .error e => s!"{seq} ERR post: {e}"
    | _ => "? ERR bad fault header"
  | parts => s!"? ERR bad fault line ({parts.length} parts)"

/-- `CRASH seq now | n acked okRW okRO integrity … | now_1 op_1 ;; … | dump` (C09): the re-opened
database must hold exactly the effects of the acknowledged operations plus all or none of the one
in flight (compared at the level of the abstract keyspace against the model run from an empty
database), satisfy the structural invariant, re-open in both modes and pass SQLite's check. -/
def judgeCrash (line : String) : String :=
  match line.splitOn " | " with
  | [hdr, metaS, opsS, dumpS] =>
    match (hdr.splitOn " ").filter (· ≠ ""), (metaS.splitOn " ").filter (· ≠ "") with
    | [_, seq, nowS], (_nS :: ackS :: rwS :: roS :: integ :: _) =>
      match nowS.toInt?, ackS.toNat?, runP pDump dumpS with
      | some now, some acked, .ok rec =>
        let opStrs := if opsS.trimAscii.toString.isEmpty then [] else opsS.splitOn " ;; "
        let parsed := opStrs.map (fun s => runP (do let t ← pInt; let o ← pOp; pure (t, o)) s)
        if parsed.any (fun r => match r with | .error _ => true | .ok _ => false) then s!"{seq} ERR ops"
        else
          let ops := parsed.filterMap (fun r => match r with | .ok x => some x | .error _ => none)
          let states := ops.foldl (fun (acc : List DB) p =>
            match acc.getLast? with
            | some d => acc ++ [(Model.dbRun p.2 p.1 d).db]
            | none => acc) [({} : DB)]
          let a := Spec.abs now (canon rec)
          let ok1 := match states[acked]? with | some d => decide (Spec.abs now d = a) | none => false
          let ok2 := match states[acked + 1]? with | some d => decide (Spec.abs now d = a) | none => false
          let reopen := rwS == "1" && roS == "1" && integ == "ok"
          -- an operation outside the numeric domain of the model among those that ran (a float
          -- increment by 0.1, say): the model cannot say what the tables must hold
          let ood := (ops.take (acked + 1)).zip states |>.any (fun (p, d) => isOutOfDomain (Model.dbRun p.2 p.1 d).out)
          let sv := if ood then "-" else if ok1 || ok2 then "1" else "0"
          s!"{seq} S={sv} I={if (canon rec).invB then 1 else 0} R={if reopen then 1 else 0} W={if ok1 then "acked" else if ok2 then "inflight" else "none"} K="
      | _, _, .error e => s!"{seq} ERR dump: {e}"
      | _, _, _ => s!"{seq} ERR header"
    | _, _ => "? ERR bad crash header"
  | parts => s!"? ERR bad crash line ({parts.length} parts)"

initialize scanCache : IO.Ref (Option (String × Except String DB)) ← IO.mkRef none

partial def loop (h : IO.FS.Stream) (out : IO.FS.Stream) : IO Unit := do
  let line ← h.getLine
  if line.isEmpty then return ()
  let l := line.trimAsciiEnd.toString
  if l.startsWith "#" then
    out.putStrLn l
  else if l.startsWith "CONC " then
    out.putStrLn (ConcJudge.judge l)
  else if l.startsWith "CONS " then
    out.putStrLn (ConcJudge.judgeCons l)
  else if l.startsWith "CRASH " then
    out.putStrLn (judgeCrash l)
  else if l.startsWith "FAULT " then
    out.putStrLn (judgeFault l)
  else if l.startsWith "TICK " then
    -- real-time observations of the background manager carry their own verdict (`TK=0|1`, computed by
    -- the harness from what it saw): pass it on under the line's sequence number
    let seq := ((l.splitOn " ").getD 1 "?")
    let tk := match (l.splitOn " TK=") with
      | [_, v] => (v.splitOn " ").headD "?"
      | _ => "?"
    out.putStrLn (if tk == "0" || tk == "1" then s!"{seq} TK={tk}" else s!"{seq} ERR tick line without verdict")
  else if l.startsWith "SCAN " then
    -- consecutive drains of one collection carry the same build history: replay it once
    let cached ← scanCache.get
    let hist := ScanJudge.historyOf l
    let res : Except String DB ← match hist, cached with
      | some h', some (h0, r0) => if h' == h0 then pure r0 else pure (ScanJudge.replay h')
      | some h', none => pure (ScanJudge.replay h')
      | none, _ => pure (.error "no history")
    match hist with
    | some h' => scanCache.set (some (h', res))
    | none => pure ()
    out.putStrLn (ScanJudge.judgeWith (fun _ => res) l)
  else if !l.isEmpty then
    out.putStrLn (judge l)
  loop h out

def main : IO Unit := do
  let stdin ← IO.getStdin
  let stdout ← IO.getStdout
  loop stdin stdout
  stdout.flush
