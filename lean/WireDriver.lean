import RedkaModel.WireProto
import RedkaModel.SockJudge

/-!
  `wiredriver`: judges the lines of `verifharness wire` against `Redka.Wire.handleX`.
  Reads lines on stdin, answers one line each:

      seq M=1            the model reproduces tokens, tables and connection state
      seq M=1 panic      … and both panicked
      seq M=-            outside the model's numeric domain (no verdict)
      seq M=0 model= tokens | dump | state      disagreement, with what the model computed

  Go applies map-typed arguments (MSET, HSET/HMSET, ZADD) in an unspecified order: every order of
  every such command that is executed by the request is tried (as `Driver.lean` does).
-/

open Redka Redka.Proto Redka.Wire Redka.WireProto

def perms {α} : List α → List (List α)
  | [] => [[]]
  | x :: xs => (perms xs).flatMap (fun p =>
      (List.range (p.length + 1)).map (fun i => p.take i ++ [x] ++ p.drop i))

def permsUpTo5 {α} (l : List α) : List (List α) := if l.length ≤ 5 then perms l else [l]

/-- all iteration orders of a command's map argument -/
def cmdVariants (c : ParsedCmd) : List ParsedCmd :=
  match c.cmd with
  | .mset items => (permsUpTo5 items).map (fun p => { c with cmd := .mset p })
  | .hset k items => (permsUpTo5 items).map (fun p => { c with cmd := .hset k p })
  | .hmset k items => (permsUpTo5 items).map (fun p => { c with cmd := .hmset k p })
  | .zadd k items => (permsUpTo5 items).map (fun p => { c with cmd := .zadd k p })
  | _ => [c]

def variantCap : Nat := 3000

/-- cartesian product of the variants of a queue, truncated -/
def queueVariants : List ParsedCmd → List (List ParsedCmd)
  | [] => [[]]
  | c :: cs =>
    let rest := queueVariants cs
    ((cmdVariants c).flatMap (fun v => rest.map (fun r => v :: r))).take variantCap

def tokKey (t : Token) : String := showToken t

def sortStrings (l : List String) : List String := (l.toArray.qsort (· < ·)).toList

def pairKeys : List Token → List String
  | a :: b :: r => (tokKey a ++ " " ++ tokKey b) :: pairKeys r
  | [a] => [tokKey a]
  | [] => []

/-- compare one segment with the observed tokens it should account for -/
def segEq (s : Seg) (obs : List Token) : Bool :=
  if s.bag == 0 then s.toks == obs
  else match s.toks, obs with
    | h :: t, h' :: t' =>
      h == h' && t.length == t'.length &&
        (if s.bag == 1 then sortStrings (t.map tokKey) == sortStrings (t'.map tokKey)
         else sortStrings (pairKeys t) == sortStrings (pairKeys t'))
    | [], [] => true
    | _, _ => false

def segsEq : List Seg → List Token → Bool
  | [], obs => obs.isEmpty
  | s :: ss, obs =>
    let n := s.toks.length
    obs.length ≥ n && segEq s (obs.take n) && segsEq ss (obs.drop n)

def stateEq (st : ConnState) (raw : RawState) : Bool :=
  st.inMulti == raw.inMulti && st.cmds.map (fun c => c.name :: c.args) == raw.cmds

/-- rebuild the connection state: each queued command is parsed again from its request -/
def mkState (raw : RawState) : Except String ConnState := do
  let cmds ← raw.cmds.mapM (fun r =>
    match parse r with
    | .ok c => pure c
    | .outOfDomain => throw "ood"
    | _ => throw "queued command does not parse")
  pure { inMulti := raw.inMulti, cmds := cmds }

def showModel (o : Wire.Out) : String :=
  let flags := (if o.panic then " !PANIC" else "")
  s!"{showTokens o.toks}{flags} | {showDump (canon o.db)} | {showState o.st}"

def judge (line : String) : String :=
  match line.splitOn " | " with
  | [hdr, preS, stS, reqS, tokS, postS, postStS] =>
    match (hdr.splitOn " ").filter (· ≠ "") with
    | [seq, nowS, _mode] =>
      match nowS.toInt?, runP pDump preS, runP pState stS, runP pRequest reqS, parseTokens tokS,
            runP pDump postS, runP pState postStS with
      | some now, .ok pre, .ok rawSt, .ok req, .ok (obs, obsPanic), .ok post, .ok rawPost =>
        match mkState rawSt with
        | .error e => if e == "ood" then s!"{seq} M=-" else s!"{seq} ERR state: {e}"
        | .ok st =>
          let post := canon post
          let cands : List Wire.Out :=
            match parse req with
            | .ok pc =>
              let isExec := st.inMulti && pc.name == asciiBytes "exec"
              let sts := if isExec then (queueVariants st.cmds).map (fun q => { st with cmds := q }) else [st]
              let pcs := if st.inMulti then [pc] else cmdVariants pc
              (sts.flatMap (fun s => pcs.map (fun p => afterParse s pre now p obs))).take variantCap
            | _ => [handleX st pre now req obs]
          match cands.find? (fun o => o.unsupported.isSome) with
          | some o => s!"{seq} M=0 unsupported: {o.unsupported.getD ""}"
          | none =>
            if cands.any (·.ood) then s!"{seq} M=-"
            else
              match cands.find? (fun o =>
                  o.panic == obsPanic && segsEq o.segs obs && decide (canon o.db = post) && stateEq o.st rawPost) with
              | some o => if o.panic then s!"{seq} M=1 panic" else s!"{seq} M=1"
              | none =>
                match cands.head? with
                | some o => s!"{seq} M=0 model= {showModel o}"
                | none => s!"{seq} M=0"
      | none, _, _, _, _, _, _ => s!"{seq} ERR bad now"
      | _, .error e, _, _, _, _, _ => s!"{seq} ERR pre: {e}"
      | _, _, .error e, _, _, _, _ => s!"{seq} ERR state: {e}"
      | _, _, _, .error e, _, _, _ => s!"{seq} ERR request: {e}"
      | _, _, _, _, .error e, _, _ => s!"{seq} ERR tokens: {e}"
      | _, _, _, _, _, .error e, _ => s!"{seq} ERR post: {e}"
      | _, _, _, _, _, _, .error e => s!"{seq} ERR post-state: {e}"
    | _ => "? ERR bad header"
  | parts => s!"? ERR bad line ({parts.length} parts)"

partial def loop (h : IO.FS.Stream) (out : IO.FS.Stream) : IO Unit := do
  let line ← h.getLine
  if line.isEmpty then return ()
  let l := line.trimAsciiEnd.toString
  if l.startsWith "#" then
    out.putStrLn l
  else if l.startsWith "SOCK " then
    out.putStrLn (Redka.SockJudge.judge l)
  else if !l.isEmpty then
    out.putStrLn (judge l)
  loop h out

def main : IO Unit := do
  let stdin ← IO.getStdin
  let stdout ← IO.getStdout
  loop stdin stdout
  stdout.flush
